// Harness-owned minimal NDArray implementation, selected through yardl's documented
// `cpp.overrideArrayHeader` option (the sandbox has no xtensor). Row-major storage,
// bounds-checked `at`. Trusted base of the verification harness - not part of yardl.
#pragma once

#include <algorithm>
#include <array>
#include <cstddef>
#include <memory>
#include <numeric>
#include <stdexcept>
#include <vector>

namespace yardl {

namespace shim_detail {
// contiguous buffer that also works for bool (unlike std::vector<bool>)
template <typename T>
class Buf {
 public:
  Buf() = default;
  explicit Buf(size_t n) : n_(n), p_(n ? new T[n]() : nullptr) {}
  Buf(Buf const& o) : n_(o.n_), p_(o.n_ ? new T[o.n_]() : nullptr) { std::copy(o.p_.get(), o.p_.get() + n_, p_.get()); }
  Buf(Buf&& o) noexcept : n_(o.n_), p_(std::move(o.p_)) { o.n_ = 0; }
  Buf& operator=(Buf const& o) {
    if (this != &o) { Buf t(o); swap(t); }
    return *this;
  }
  Buf& operator=(Buf&& o) noexcept { n_ = o.n_; p_ = std::move(o.p_); o.n_ = 0; return *this; }
  void swap(Buf& o) { std::swap(n_, o.n_); std::swap(p_, o.p_); }
  void resize(size_t n) {
    if (n == n_) return;
    Buf t(n);
    std::copy(p_.get(), p_.get() + std::min(n, n_), t.p_.get());
    swap(t);
  }
  size_t size() const { return n_; }
  T* data() { return p_.get(); }
  T const* data() const { return p_.get(); }
  T* begin() { return p_.get(); }
  T* end() { return p_.get() + n_; }
  T const* begin() const { return p_.get(); }
  T const* end() const { return p_.get() + n_; }
  bool operator==(Buf const& o) const { return n_ == o.n_ && std::equal(begin(), end(), o.begin()); }

 private:
  size_t n_ = 0;
  std::unique_ptr<T[]> p_;
};

template <typename Shape, typename... Args>
size_t offset(Shape const& shape, Args... idx) {
  std::array<size_t, sizeof...(Args)> ix{static_cast<size_t>(idx)...};
  if (ix.size() != shape.size()) throw std::out_of_range("ndarray shim: wrong number of indices");
  size_t off = 0;
  for (size_t i = 0; i < ix.size(); i++) {
    if (ix[i] >= shape[i]) throw std::out_of_range("ndarray shim: index out of range");
    off = off * shape[i] + ix[i];
  }
  return off;
}
}  // namespace shim_detail

template <typename T, size_t... Dims>
struct FixedNDArray {
  static constexpr size_t kSize = (Dims * ... * 1);
  std::array<T, kSize> data_{};

  FixedNDArray() = default;
  FixedNDArray(std::initializer_list<T> init) { std::copy_n(init.begin(), std::min(init.size(), kSize), data_.begin()); }

  constexpr size_t size() const { return kSize; }
  T* data() { return data_.data(); }
  T const* data() const { return data_.data(); }
  auto begin() { return data_.begin(); }
  auto end() { return data_.end(); }
  auto begin() const { return data_.begin(); }
  auto end() const { return data_.end(); }
  bool operator==(FixedNDArray const& o) const { return data_ == o.data_; }
  bool operator!=(FixedNDArray const& o) const { return !(*this == o); }
};

template <typename T, size_t N>
struct NDArray {
  std::array<size_t, N> shape_{};
  shim_detail::Buf<T> buf_{};

  size_t size() const { return buf_.size(); }
  T* data() { return buf_.data(); }
  T const* data() const { return buf_.data(); }
  auto begin() { return buf_.begin(); }
  auto end() { return buf_.end(); }
  auto begin() const { return buf_.begin(); }
  auto end() const { return buf_.end(); }
  bool operator==(NDArray const& o) const { return shape_ == o.shape_ && buf_ == o.buf_; }
  bool operator!=(NDArray const& o) const { return !(*this == o); }
};

template <typename T>
struct DynamicNDArray {
  std::vector<size_t> shape_{};
  shim_detail::Buf<T> buf_{};

  size_t size() const { return buf_.size(); }
  T* data() { return buf_.data(); }
  T const* data() const { return buf_.data(); }
  auto begin() { return buf_.begin(); }
  auto end() { return buf_.end(); }
  auto begin() const { return buf_.begin(); }
  auto end() const { return buf_.end(); }
  bool operator==(DynamicNDArray const& o) const { return shape_ == o.shape_ && buf_ == o.buf_; }
  bool operator!=(DynamicNDArray const& o) const { return !(*this == o); }
};

/**** FixedNDArray ****/
template <typename T, size_t... Dims>
constexpr size_t size(FixedNDArray<T, Dims...> const& arr) { return arr.size(); }
template <typename T, size_t... Dims>
constexpr size_t dimension(FixedNDArray<T, Dims...> const&) { return sizeof...(Dims); }
template <typename T, size_t... Dims>
constexpr std::array<size_t, sizeof...(Dims)> shape(FixedNDArray<T, Dims...> const&) { return {Dims...}; }
template <typename T, size_t... Dims>
constexpr size_t shape(FixedNDArray<T, Dims...> const& arr, size_t dim) { return shape(arr).at(dim); }
template <typename T, size_t... Dims>
constexpr T* dataptr(FixedNDArray<T, Dims...>& arr) { return arr.data(); }
template <typename T, size_t... Dims>
constexpr T const* dataptr(FixedNDArray<T, Dims...> const& arr) { return arr.data(); }
template <typename T, size_t... Dims, class... Args>
constexpr T const& at(FixedNDArray<T, Dims...> const& arr, Args... idx) {
  return arr.data()[shim_detail::offset(shape(arr), idx...)];
}

/**** NDArray ****/
template <typename T, size_t N>
size_t size(NDArray<T, N> const& arr) { return arr.size(); }
template <typename T, size_t N>
size_t dimension(NDArray<T, N> const&) { return N; }
template <typename T, size_t N>
std::array<size_t, N> shape(NDArray<T, N> const& arr) { return arr.shape_; }
template <typename T, size_t N>
size_t shape(NDArray<T, N> const& arr, size_t dim) { return arr.shape_.at(dim); }
template <typename T, size_t N>
void resize(NDArray<T, N>& arr, std::array<size_t, N> const& shape) {
  arr.shape_ = shape;
  arr.buf_.resize(std::accumulate(shape.begin(), shape.end(), size_t{1}, std::multiplies<size_t>()));
}
template <typename T, size_t N>
T* dataptr(NDArray<T, N>& arr) { return arr.data(); }
template <typename T, size_t N>
T const* dataptr(NDArray<T, N> const& arr) { return arr.data(); }
template <typename T, size_t N, class... Args>
T const& at(NDArray<T, N> const& arr, Args... idx) { return arr.data()[shim_detail::offset(arr.shape_, idx...)]; }

/**** DynamicNDArray ****/
template <typename T>
size_t size(DynamicNDArray<T> const& arr) { return arr.size(); }
template <typename T>
size_t dimension(DynamicNDArray<T> const& arr) { return arr.shape_.size(); }
template <typename T>
std::vector<size_t> shape(DynamicNDArray<T> const& arr) { return arr.shape_; }
template <typename T>
size_t shape(DynamicNDArray<T> const& arr, size_t dim) { return arr.shape_.at(dim); }
template <typename T>
void resize(DynamicNDArray<T>& arr, std::vector<size_t> const& shape) {
  arr.shape_ = shape;
  arr.buf_.resize(std::accumulate(shape.begin(), shape.end(), size_t{1}, std::multiplies<size_t>()));
}
template <typename T>
T* dataptr(DynamicNDArray<T>& arr) { return arr.data(); }
template <typename T>
T const* dataptr(DynamicNDArray<T> const& arr) { return arr.data(); }
template <typename T, class... Args>
T const& at(DynamicNDArray<T> const& arr, Args... idx) { return arr.data()[shim_detail::offset(arr.shape_, idx...)]; }

}  // namespace yardl
