// Harness-owned stand-in for Howard Hinnant's <date/date.h> (absent from the sandbox).
// Implements exactly the entry points yardl's shipped headers use: date::days,
// date::local_days, date::format("%F" | "%T" | "%FT%T", v) and date::from_stream.
// Trusted base of the verification harness - not part of yardl.
#pragma once

#include <chrono>
#include <cstdint>
#include <cstdio>
#include <istream>
#include <ratio>
#include <sstream>
#include <string>
#include <type_traits>

namespace date {

using days = std::chrono::duration<int, std::ratio<86400>>;
struct local_t {};
template <class Duration>
using local_time = std::chrono::time_point<local_t, Duration>;
using local_days = local_time<days>;

namespace shim_detail {
// civil-calendar algorithms (public domain, H. Hinnant, "chrono-Compatible Low-Level Date Algorithms")
inline int64_t days_from_civil(int64_t y, unsigned m, unsigned d) {
  y -= m <= 2;
  const int64_t era = (y >= 0 ? y : y - 399) / 400;
  const unsigned yoe = static_cast<unsigned>(y - era * 400);
  const unsigned doy = (153 * (m > 2 ? m - 3 : m + 9) + 2) / 5 + d - 1;
  const unsigned doe = yoe * 365 + yoe / 4 - yoe / 100 + doy;
  return era * 146097 + static_cast<int64_t>(doe) - 719468;
}
inline void civil_from_days(int64_t z, int64_t& y, unsigned& m, unsigned& d) {
  z += 719468;
  const int64_t era = (z >= 0 ? z : z - 146096) / 146097;
  const unsigned doe = static_cast<unsigned>(z - era * 146097);
  const unsigned yoe = (doe - doe / 1460 + doe / 36524 - doe / 146096) / 365;
  y = static_cast<int64_t>(yoe) + era * 400;
  const unsigned doy = doe - (365 * yoe + yoe / 4 - yoe / 100);
  const unsigned mp = (5 * doy + 2) / 153;
  d = doy - (153 * mp + 2) / 5 + 1;
  m = mp < 10 ? mp + 3 : mp - 9;
  y += (m <= 2);
}
inline std::string fmt_date(int64_t daycount) {
  int64_t y; unsigned m, d;
  civil_from_days(daycount, y, m, d);
  char buf[64];
  if (y < 0) std::snprintf(buf, sizeof buf, "-%04lld-%02u-%02u", static_cast<long long>(-y), m, d);
  else std::snprintf(buf, sizeof buf, "%04lld-%02u-%02u", static_cast<long long>(y), m, d);
  return buf;
}
inline std::string fmt_tod(int64_t ns) {
  bool neg = ns < 0;
  uint64_t u = neg ? static_cast<uint64_t>(-(ns + 1)) + 1 : static_cast<uint64_t>(ns);
  uint64_t frac = u % 1000000000ULL; u /= 1000000000ULL;
  uint64_t s = u % 60; u /= 60;
  uint64_t mi = u % 60; u /= 60;
  char buf[64];
  std::snprintf(buf, sizeof buf, "%s%02llu:%02llu:%02llu.%09llu", neg ? "-" : "", static_cast<unsigned long long>(u),
                static_cast<unsigned long long>(mi), static_cast<unsigned long long>(s), static_cast<unsigned long long>(frac));
  return buf;
}
inline bool read_uint(std::istream& is, int64_t& v, int min_digits, int max_digits) {
  v = 0; int n = 0;
  while (n < max_digits) {
    int c = is.peek();
    if (c < '0' || c > '9') break;
    is.get(); v = v * 10 + (c - '0'); n++;
  }
  return n >= min_digits;
}
inline bool expect(std::istream& is, char ch) {
  if (is.peek() != ch) return false;
  is.get(); return true;
}
inline bool parse_date(std::istream& is, int64_t& daycount) {
  bool neg = false;
  if (is.peek() == '-') { neg = true; is.get(); }
  int64_t y, m, d;
  if (!read_uint(is, y, 1, 9) || !expect(is, '-') || !read_uint(is, m, 1, 2) || !expect(is, '-') || !read_uint(is, d, 1, 2)) return false;
  if (m < 1 || m > 12 || d < 1 || d > 31) return false;
  daycount = days_from_civil(neg ? -y : y, static_cast<unsigned>(m), static_cast<unsigned>(d));
  return true;
}
inline bool parse_tod(std::istream& is, int64_t& ns) {
  int64_t h, mi, s, frac = 0;
  if (!read_uint(is, h, 1, 4) || !expect(is, ':') || !read_uint(is, mi, 1, 2) || !expect(is, ':') || !read_uint(is, s, 1, 2)) return false;
  if (mi > 59 || s > 60) return false;
  if (is.peek() == '.') {
    is.get();
    int n = 0;
    while (true) {
      int c = is.peek();
      if (c < '0' || c > '9') break;
      is.get();
      if (n < 9) { frac = frac * 10 + (c - '0'); n++; }
    }
    if (n == 0) return false;
    while (n < 9) { frac *= 10; n++; }
  }
  ns = ((h * 60 + mi) * 60 + s) * 1000000000LL + frac;
  return true;
}
}  // namespace shim_detail

// ---- format
inline std::string format(const char* fmt, local_days const& v) {
  (void)fmt;
  return shim_detail::fmt_date(v.time_since_epoch().count());
}
template <class Rep, class Period>
inline std::string format(const char* fmt, std::chrono::duration<Rep, Period> const& v) {
  (void)fmt;
  return shim_detail::fmt_tod(std::chrono::duration_cast<std::chrono::nanoseconds>(v).count());
}
template <class Clock, class Duration, std::enable_if_t<!std::is_same_v<Clock, local_t>, bool> = true>
inline std::string format(const char* fmt, std::chrono::time_point<Clock, Duration> const& v) {
  (void)fmt;
  int64_t ns = std::chrono::duration_cast<std::chrono::nanoseconds>(v.time_since_epoch()).count();
  const int64_t day = 86400LL * 1000000000LL;
  int64_t dcount = ns / day, rem = ns % day;
  if (rem < 0) { rem += day; dcount -= 1; }
  return shim_detail::fmt_date(dcount) + "T" + shim_detail::fmt_tod(rem);
}

// ---- from_stream
inline std::istream& from_stream(std::istream& is, const char* fmt, local_days& v) {
  (void)fmt;
  int64_t d;
  if (!shim_detail::parse_date(is, d)) { is.setstate(std::ios::failbit); return is; }
  v = local_days(days(static_cast<int>(d)));
  return is;
}
template <class Rep, class Period>
inline std::istream& from_stream(std::istream& is, const char* fmt, std::chrono::duration<Rep, Period>& v) {
  (void)fmt;
  int64_t ns;
  if (!shim_detail::parse_tod(is, ns)) { is.setstate(std::ios::failbit); return is; }
  v = std::chrono::duration_cast<std::chrono::duration<Rep, Period>>(std::chrono::nanoseconds(ns));
  return is;
}
template <class Clock, class Duration, std::enable_if_t<!std::is_same_v<Clock, local_t>, bool> = true>
inline std::istream& from_stream(std::istream& is, const char* fmt, std::chrono::time_point<Clock, Duration>& v) {
  (void)fmt;
  int64_t d, ns;
  if (!shim_detail::parse_date(is, d) || !shim_detail::expect(is, 'T') || !shim_detail::parse_tod(is, ns)) {
    is.setstate(std::ios::failbit);
    return is;
  }
  // the day count times the nanoseconds of a day may leave the 64-bit range although the instant itself fits (the first day of the representable range):
  // the sum is formed in 128 bits; an instant outside the range is a parse failure
  __int128 total = static_cast<__int128>(d) * 86400LL * 1000000000LL + ns;
  if (total > static_cast<__int128>(INT64_MAX) || total < static_cast<__int128>(INT64_MIN)) {
    is.setstate(std::ios::failbit);
    return is;
  }
  v = std::chrono::time_point<Clock, Duration>(
      std::chrono::duration_cast<Duration>(std::chrono::nanoseconds(static_cast<int64_t>(total))));
  return is;
}

}  // namespace date
