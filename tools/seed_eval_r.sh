#!/bin/bash
# usage: seed_eval_r.sh <round> <ID> <X> [tier]  -- evaluates one seeded change of round <round> (worktrees /tmp/wt<round>_<ID>) in an isolated
# worktree (never touches /repo's working tree): pinned go tests, demonstration with / without the change, ./check <ID> with VERIF_REPO.
RD=$1; ID=$2; X=$3; TIER=${4:-quick}
SD=/tmp/wt${RD}_$ID/SEEDED/$X
OUT=/tmp/seed_results${RD}/${ID}_$X
mkdir -p $OUT
export GOFLAGS=-mod=mod GOPROXY=off
R=/tmp/seedrepo${RD}_${ID}_$X
git -C /repo worktree remove --force $R >/dev/null 2>&1; rm -rf $R; git -C /repo worktree prune
git -C /repo worktree add --detach $R HEAD >/dev/null 2>&1 || { echo "WORKTREE-FAILED" > $OUT/status; exit 0; }
[ -d $R/tooling ] || { echo "WORKTREE-FAILED" > $OUT/status; exit 0; }
if ! git -C $R apply --check $SD/patch.diff 2>$OUT/apply.err; then echo "APPLY-FAILED" > $OUT/status; git -C /repo worktree remove --force $R; exit 0; fi
git -C $R apply $SD/patch.diff
( cd $R/tooling && go build ./... && go test -vet=off -count=1 ./... ) > $OUT/gotest.log 2>&1; echo "gotest=$?" > $OUT/status
( cd $SD && timeout 900 bash demo.sh $R ) > $OUT/demo_patched.log 2>&1; echo "demo_patched=$?" >> $OUT/status
( cd /verif && VERIF_REPO=$R VERIF_WORK=/tmp/seedwork${RD}_${ID}_$X VERIF_EVIDENCE=/tmp/seedev${RD}_${ID}_$X timeout 2400 ./check $ID --tier $TIER ) > $OUT/check.log 2>&1; echo "check=$?" >> $OUT/status
echo "violations=$(grep -c '^VIOLATION' $OUT/check.log)" >> $OUT/status
git -C $R checkout -- .
git -C $R clean -fdq tooling
( cd $SD && timeout 900 bash demo.sh $R ) > $OUT/demo_clean.log 2>&1; echo "demo_clean=$?" >> $OUT/status
git -C /repo worktree remove --force $R >/dev/null 2>&1
rm -rf /tmp/seedwork${RD}_${ID}_$X /tmp/seedev${RD}_${ID}_$X $R
echo "$ID $X: $(tr '\n' ' ' < $OUT/status)"
