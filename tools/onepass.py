"""usage: onepass.py <ID> <function> [tier] [extra positional args evaluated with eval]
Development aid: runs ONE pass (function taking ctx as first argument) of a check module against VERIF_REPO with scratch work / evidence directories
and prints the violations. Never writes /verif/evidence."""
import importlib
import os
import sys
os.environ.setdefault("VERIF_WORK", "/tmp/onepass_work")
os.environ.setdefault("VERIF_EVIDENCE", "/tmp/onepass_ev")
sys.path.insert(0, os.path.dirname(os.path.dirname(os.path.abspath(__file__))))
from vlib import common  # noqa
from vlib.main import Ctx  # noqa
pid, fn = sys.argv[1], sys.argv[2]
tier = sys.argv[3] if len(sys.argv) > 3 else "quick"
mod = importlib.import_module("props." + pid)
ctx = Ctx(pid, tier, getattr(mod, "LEVEL", "exploration"))
common.build_yardl()
args = [eval(a, vars(mod)) for a in sys.argv[4:]]
try:
    getattr(mod, fn)(ctx, *args)
finally:
    rc = ctx.finish()
print("evaluations", ctx.evaluations, "distinct", len(ctx.distinct), "rc", rc)
