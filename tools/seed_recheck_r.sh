#!/bin/bash
# usage: seed_recheck_r.sh <round> <ID> <X> [CHECK-ID] [tier]  -- re-runs only ./check (own or another property's) against a seeded change,
# taking the patch from /verif/seeded/<ID>/<X>/patch.diff when the round's /tmp worktree is gone.
RD=$1; ID=$2; X=$3; CK=${4:-$ID}; TIER=${5:-quick}
SD=/tmp/wt${RD}_$ID/SEEDED/$X
[ -f $SD/patch.diff ] || SD=/verif/seeded/$ID/$X
OUT=/tmp/seed_results${RD}/${ID}_$X
mkdir -p $OUT
export GOFLAGS=-mod=mod GOPROXY=off
R=/tmp/seedre${RD}_${ID}_${X}_$CK
git -C /repo worktree remove --force $R >/dev/null 2>&1; rm -rf $R; git -C /repo worktree prune
git -C /repo worktree add --detach $R HEAD >/dev/null 2>&1 || { echo WORKTREE-FAILED; exit 0; }
git -C $R apply $SD/patch.diff || { echo APPLY-FAILED; git -C /repo worktree remove --force $R; exit 0; }
LOG=$OUT/check.log; [ "$CK" = "$ID" ] || LOG=$OUT/check_$CK.log
( cd /verif && VERIF_REPO=$R VERIF_WORK=/tmp/seedrework${RD}_${ID}_${X}_$CK VERIF_EVIDENCE=/tmp/seedreev${RD}_${ID}_${X}_$CK timeout 2400 ./check $CK --tier $TIER ) > $LOG 2>&1
rc=$?
if [ "$CK" = "$ID" ] && [ -f $OUT/status ]; then sed -i "s/^check=.*/check=$rc/; s/^violations=.*/violations=$(grep -c '^VIOLATION' $LOG)/" $OUT/status; fi
echo "$ID $X by $CK: rc=$rc violations=$(grep -c '^VIOLATION' $LOG)"
git -C /repo worktree remove --force $R >/dev/null 2>&1
rm -rf /tmp/seedrework${RD}_${ID}_${X}_$CK /tmp/seedreev${RD}_${ID}_${X}_$CK $R
