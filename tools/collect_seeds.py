import os, shutil, json, glob, re
out="/verif/seeded"
os.makedirs(out, exist_ok=True)
rows=[]
props={}
for l in open('/verif/properties.jsonl'):
    p=json.loads(l); props[p['id']]=p['title']
for sd in sorted(glob.glob('/tmp/wt_*/SEEDED/*/') + glob.glob('/tmp/wt2_*/SEEDED/*/'), key=lambda d: (re.search(r'(C\d+)/SEEDED/(\w)', d).groups())):
    m=re.match(r'/tmp/wt2?_(C\d+)/SEEDED/(\w)/', sd)
    if not m or not os.path.exists(sd+'patch.diff'): continue
    pid, x = m.group(1), m.group(2)
    st={}
    resdir='/tmp/seed_results2' if x in ('C','D') else '/tmp/seed_results'
    sp='%s/%s_%s/status'%(resdir,pid,x)
    if os.path.exists(sp):
        for ln in open(sp):
            if '=' in ln:
                k,v=ln.strip().split('=',1); st[k]=v
            else: st['note']=ln.strip()
    dst=os.path.join(out,pid,x)
    shutil.rmtree(dst, ignore_errors=True)
    os.makedirs(dst)
    for root,dirs,files in os.walk(sd):
        dirs[:]=[d for d in dirs if d not in ('out','build','work','__pycache__','gen','generated') and not d.startswith('.')]
        for f in files:
            p=os.path.join(root,f)
            if os.path.getsize(p) > 200000: continue
            rel=os.path.relpath(p, sd)
            os.makedirs(os.path.dirname(os.path.join(dst,rel)), exist_ok=True)
            shutil.copy(p, os.path.join(dst,rel))
    readme=open(sd+'README.md').read() if os.path.exists(sd+'README.md') else ''
    caught = st.get('check')=='1' and int(st.get('violations','0') or 0)>0
    valid = st.get('gotest')=='0' and st.get('demo_patched') not in (None,'0') and st.get('demo_clean')=='0'
    viol=[]
    cl='%s/%s_%s/check.log'%(resdir,pid,x)
    if os.path.exists(cl):
        viol=[l.strip()[:300] for l in open(cl, errors='replace') if l.startswith('  signature=')][:3]
    meta={"property": pid, "title": props.get(pid), "variant": x,
          "needs_to_manifest": (re.search(r'(?is)(what (it )?(takes|needs)[^\n]*\n.*?)(\n#|\Z)', readme) or [None,readme[:1200]])[1][:1500],
          "confirmed_by_me": {"applies_to_current_tree": 'note' not in st, "go_build_and_pinned_tests_pass_with_change": st.get('gotest')=='0',
                              "demonstration_fails_with_change": st.get('demo_patched') not in (None,'0'), "demonstration_passes_without_change": st.get('demo_clean')=='0'},
          "what_i_ran": "scratch worktree of /repo HEAD; git apply patch.diff; cd tooling && go build ./... && go test -vet=off -count=1 ./...; bash demo.sh <worktree>; VERIF_REPO=<worktree> ./check %s --tier quick; git checkout; bash demo.sh <worktree>" % pid,
          "check_result": {"exit": st.get('check'), "violation_lines": st.get('violations'), "first_signatures": viol},
          "caught_by_check": bool(caught), "valid_seed": bool(valid), "raw_status": st}
    if (pid, x) in (("C14", "B"), ("C14", "D")):
        other = {}
        for c in (("C17", "C07") if x == "B" else ("C01", "C03")):
            lp = '%s/C14_%s/check_%s.log' % (resdir, x, c)
            if os.path.exists(lp):
                ls = open(lp, errors='replace').read().splitlines()
                other[c] = {"violation_lines": sum(1 for l in ls if l.startswith("VIOLATION")), "first_signatures": [l.strip()[:300] for l in ls if l.startswith("  signature=")][:2]}
        meta["caught_by_other_checks"] = other
        meta["note"] = ("C14's check extracts serialization plans from the generated Python and MATLAB code only; this change is in the generated C++ code. "
                        + ("It is caught by C17 (empty batches around every batch), C07 (real binary writer sequences) and, since the second round, C01 (batched writer calls)." if x == "B" else
                           "It is caught by C01 and C03 (records with interior padding at the 64 KiB boundary sweep)."))
    if os.path.exists('%s/%s_%s/demo_note' % (resdir, pid, x)):
        meta["what_i_ran"] += "; " + open('%s/%s_%s/demo_note' % (resdir, pid, x)).read().strip()
    meta["round"] = 2 if x in ("C", "D") else 1
    json.dump(meta, open(os.path.join(dst,'meta.json'),'w'), indent=1)
    rows.append((pid,x,valid,caught,st,viol))
with open(os.path.join(out,'RESULTS.md'),'w') as f:
    f.write("# Seeded changes and which checks catch them\n\nEach change was written by an independent sub-agent that saw only the property text, in its own scratch worktree. Variants A, B are the first round; C, D a second round (fresh agents, told only the one-line titles of A and B so as to do something else) run after the checks had been strengthened once. "
            "`valid` = applies to the current tree, compiles, pinned Go tests pass, demonstration fails with the change and passes without. `caught` = `./check <id> --tier quick` "
            "(run with VERIF_REPO pointing at a scratch worktree with the change applied) exits 1 with VIOLATION lines.\n\n| property | variant | valid | caught by ./check <id> | first violation signature |\n|---|---|---|---|---|\n")
    for pid,x,valid,caught,st,viol in rows:
        f.write("| %s | %s | %s | %s | %s |\n" % (pid,x,"yes" if valid else "no (%s)" % (st.get('note') or ("demo_clean=%s demo_patched=%s gotest=%s" % (st.get('demo_clean'),st.get('demo_patched'),st.get('gotest')))), "**yes**" if caught else ("no (caught by ./check C17, C07, C01)" if (pid, x) == ("C14", "B") else ("no (caught by ./check C01 and C03)" if (pid, x) == ("C14", "D") else "no")), (viol[0][10:170] if viol else "").replace("|","/")))
print(len(rows), sum(1 for r in rows if r[2]), sum(1 for r in rows if r[3]))
