#!/bin/bash
# usage: seed_cross.sh <round 1|2|3|4> <ID> <X> <CHECK-ID>  -- runs another property's quick check against a seeded change (cross-catch)
RD=$1; ID=$2; X=$3; CK=$4
case $RD in 1) P=/tmp/wt_;; *) P=/tmp/wt${RD}_;; esac
case $RD in 1) RES=/tmp/seed_results;; *) RES=/tmp/seed_results$RD;; esac
SD=${P}$ID/SEEDED/$X
OUT=$RES/${ID}_$X
mkdir -p $OUT
export GOFLAGS=-mod=mod GOPROXY=off
R=/tmp/seedcross_${ID}_${X}_$CK
git -C /repo worktree remove --force $R >/dev/null 2>&1; rm -rf $R; git -C /repo worktree prune
git -C /repo worktree add --detach $R HEAD >/dev/null 2>&1 || { echo WORKTREE-FAILED; exit 0; }
git -C $R apply $SD/patch.diff || { echo APPLY-FAILED; git -C /repo worktree remove --force $R; exit 0; }
( cd /verif && VERIF_REPO=$R VERIF_WORK=/tmp/seedcrosswork_${ID}_${X}_$CK VERIF_EVIDENCE=/tmp/seedcrossev_${ID}_${X}_$CK timeout 1800 ./check $CK --tier quick ) > $OUT/check_$CK.log 2>&1
echo "$ID $X by $CK: rc=$? violations=$(grep -c '^VIOLATION' $OUT/check_$CK.log)"
git -C /repo worktree remove --force $R >/dev/null 2>&1
rm -rf /tmp/seedcrosswork_${ID}_${X}_$CK /tmp/seedcrossev_${ID}_${X}_$CK $R
