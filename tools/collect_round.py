"""usage: collect_round.py <round> <ID> <X> [<ID> <X> ...]   (or: collect_round.py --results)
Copies one evaluated seeded change from /tmp/wt<round>_<ID>/SEEDED/<X> into /verif/seeded/<ID>/<X> with a meta.json built from
/tmp/seed_results<round>/<ID>_<X>/status, and regenerates seeded/RESULTS.md from every committed meta.json."""
import glob
import json
import os
import re
import shutil
import sys

OUT = "/verif/seeded"
props = {}
for l in open('/verif/properties.jsonl'):
    p = json.loads(l)
    props[p['id']] = p['title']


def collect(rd, pid, x):
    sd = '/tmp/wt%s_%s/SEEDED/%s/' % (rd, pid, x)
    resdir = '/tmp/seed_results%s/%s_%s' % (rd, pid, x)
    st = {}
    sp = resdir + '/status'
    if os.path.exists(sp):
        for ln in open(sp):
            if '=' in ln:
                k, v = ln.strip().split('=', 1)
                st[k] = v
            else:
                st['note'] = ln.strip()
    dst = os.path.join(OUT, pid, x)
    shutil.rmtree(dst, ignore_errors=True)
    os.makedirs(dst)
    for root, dirs, files in os.walk(sd):
        dirs[:] = [d for d in dirs if d not in ('out', 'build', 'work', '__pycache__', 'gen', 'generated') and not d.startswith('.')]
        for f in files:
            p = os.path.join(root, f)
            if os.path.islink(p) or os.path.getsize(p) > 200000:
                continue
            rel = os.path.relpath(p, sd)
            os.makedirs(os.path.dirname(os.path.join(dst, rel)), exist_ok=True)
            shutil.copy(p, os.path.join(dst, rel))
    readme = open(sd + 'README.md').read() if os.path.exists(sd + 'README.md') else ''
    caught = st.get('check') == '1' and int(st.get('violations', '0') or 0) > 0
    valid = st.get('gotest') == '0' and st.get('demo_patched') not in (None, '0') and st.get('demo_clean') == '0'
    viol = []
    cl = resdir + '/check.log'
    if os.path.exists(cl):
        viol = [l.strip()[:300] for l in open(cl, errors='replace') if l.startswith('  signature=')][:3]
    other = {}
    for lp in sorted(glob.glob(resdir + '/check_C*.log')):
        c = re.search(r'check_(C\d+)\.log', lp).group(1)
        ls = open(lp, errors='replace').read().splitlines()
        other[c] = {"violation_lines": sum(1 for l in ls if l.startswith("VIOLATION")),
                    "first_signatures": [l.strip()[:300] for l in ls if l.startswith("  signature=")][:2]}
    m = re.search(r'(?is)(what (it )?(takes|needs)[^\n]*\n.*?)(\n#|\Z)', readme)
    meta = {"property": pid, "title": props.get(pid), "variant": x, "round": int(rd) if str(rd).isdigit() else rd,
            "breaks": "property %s (%s)" % (pid, props.get(pid)),
            "needs_to_manifest": (m.group(1) if m else readme[:1200])[:1500],
            "confirmed_by_me": {"applies_to_current_tree": 'note' not in st,
                                "go_build_and_pinned_tests_pass_with_change": st.get('gotest') == '0',
                                "demonstration_fails_with_change": st.get('demo_patched') not in (None, '0'),
                                "demonstration_passes_without_change": st.get('demo_clean') == '0'},
            "what_i_ran": "scratch worktree of /repo HEAD under /tmp; git apply patch.diff; cd tooling && go build ./... && go test -vet=off -count=1 ./...; "
                          "bash demo.sh <worktree>; VERIF_REPO=<worktree> ./check %s --tier quick; git checkout; bash demo.sh <worktree> (tools/seed_eval_r.sh)" % pid,
            "check_result": {"exit": st.get('check'), "violation_lines": st.get('violations'), "first_signatures": viol},
            "caught_by_check": bool(caught), "valid_seed": bool(valid), "raw_status": st}
    if other:
        meta["caught_by_other_checks"] = other
    note = resdir + '/note'
    if os.path.exists(note):
        meta["note"] = open(note).read().strip()
    json.dump(meta, open(os.path.join(dst, 'meta.json'), 'w'), indent=1)
    print(pid, x, "valid" if valid else "NOT-VALID", "caught" if caught else "missed", st)


def results():
    rows = []
    for f in sorted(glob.glob(OUT + '/C*/*/meta.json')):
        m = json.load(open(f))
        rows.append(m)
    with open(os.path.join(OUT, 'RESULTS.md'), 'w') as f:
        f.write("# Seeded changes and which checks catch them\n\nEach change was written by an independent sub-agent that saw only the property text, in its own scratch "
                "worktree. Variants A, B are the first round; C, D a second round (fresh agents, told only the one-line titles of A and B so as to do something else) run "
                "after the checks had been strengthened once; the third (E, F) and fourth rounds were evaluated in earlier sessions but their files were lost with the scratch area of those sessions - only "
                "their descriptions survive in DESIGN.md section 11; G is the fifth round (fresh agents, told one-line descriptions of all earlier changes; files committed as soon as evaluated), H, J, K, L, M, N the sixth to eleventh, P the twelfth (two halves of ten). "
                "Where a later fix: commit rewrote the lines a change touches, patch.diff is a port to the current tree and patch_original.diff what the agent wrote (see meta.json / note). "
                "`valid` = applies to the current tree, compiles, pinned Go tests pass, demonstration fails with the change and passes without. `caught` = "
                "`./check <id> --tier quick` (run with VERIF_REPO pointing at a scratch worktree with the change applied) exits 1 with VIOLATION lines.\n\n"
                "| property | variant | valid | caught by ./check <id> | first violation signature |\n|---|---|---|---|---|\n")
        for m in rows:
            st = m.get("raw_status", {})
            valid, caught = m.get("valid_seed"), m.get("caught_by_check")
            viol = m.get("check_result", {}).get("first_signatures") or []
            oc = [c for c, v in (m.get("caught_by_other_checks") or {}).items() if v.get("violation_lines")]
            f.write("| %s | %s | %s | %s | %s |\n" % (
                m["property"], m["variant"],
                "yes" if valid else "no (%s)" % (st.get('note') or ("demo_clean=%s demo_patched=%s gotest=%s" % (st.get('demo_clean'), st.get('demo_patched'), st.get('gotest')))),
                "**yes**" if caught else ("no (caught by ./check %s)" % ", ".join(oc) if oc else "no"),
                (viol[0][10:170] if viol else "").replace("|", "/")))
    print(len(rows), "rows;", sum(1 for r in rows if r.get("valid_seed")), "valid;", sum(1 for r in rows if r.get("caught_by_check")), "caught by own check")


if __name__ == '__main__':
    a = sys.argv[1:]
    if a and a[0] != '--results':
        rd = a[0]
        for i in range(1, len(a) - 1, 2):
            collect(rd, a[i], a[i + 1])
    results()
