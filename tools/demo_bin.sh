#!/bin/bash
# usage: demo_bin.sh <ID> <A|B> : demos that take a yardl binary
ID=$1; X=$2
SD=/tmp/wt_$ID/SEEDED/$X
OUT=/tmp/seed_results/${ID}_$X
export GOFLAGS=-mod=mod GOPROXY=off
R=/tmp/seedbin_${ID}_$X
git -C /repo worktree remove --force $R >/dev/null 2>&1; rm -rf $R; git -C /repo worktree prune
git -C /repo worktree add --detach $R HEAD >/dev/null 2>&1 || { echo WORKTREE-FAILED; exit 0; }
[ -d $R/tooling ] || exit 0
( cd $R/tooling && go build -o /tmp/seedbin_${ID}_$X.clean ./cmd/yardl ) || echo build-clean-failed
git -C $R apply $SD/patch.diff
( cd $R/tooling && go build -o /tmp/seedbin_${ID}_$X.patched ./cmd/yardl ) || echo build-patched-failed
git -C /repo worktree remove --force $R >/dev/null 2>&1; rm -rf $R
( cd $SD && timeout 900 bash demo.sh /tmp/seedbin_${ID}_$X.patched ) > $OUT/demo_patched.log 2>&1; p=$?
( cd $SD && timeout 900 bash demo.sh /tmp/seedbin_${ID}_$X.clean ) > $OUT/demo_clean.log 2>&1; c=$?
sed -i "s/^demo_patched=.*/demo_patched=$p/; s/^demo_clean=.*/demo_clean=$c/" $OUT/status
echo "demo re-run with built binaries (demo.sh takes a yardl binary)" > $OUT/demo_note
rm -f /tmp/seedbin_${ID}_$X.clean /tmp/seedbin_${ID}_$X.patched
echo "$ID $X patched=$p clean=$c"
