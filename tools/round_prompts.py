"""usage: round_prompts.py <round> <variant letter>
Creates a scratch worktree /tmp/wt<round>_<ID> of /repo's HEAD per property and writes /tmp/prompts<round>/<ID>.txt: the brief for one
independent seeding sub-agent. The brief holds the text of the property, one-line titles of the changes of earlier rounds (so that the
agent does something else), facts about the sandbox, and where to leave its deliverables. Nothing about /verif's checks is in it."""
import glob
import json
import os
import re
import subprocess
import sys

rd, letter = sys.argv[1], sys.argv[2]
only = sys.argv[3:]
os.makedirs('/tmp/prompts%s' % rd, exist_ok=True)
for line in open('/verif/properties.jsonl'):
    p = json.loads(line)
    pid = p['id']
    if only and pid not in only:
        continue
    wt = '/tmp/wt%s_%s' % (rd, pid)
    if not os.path.isdir(wt + '/tooling'):
        subprocess.run(['git', '-C', '/repo', 'worktree', 'add', '--detach', wt, 'HEAD'], check=True, stdout=subprocess.DEVNULL,
                       stderr=subprocess.DEVNULL)
    titles = []
    for r in sorted(glob.glob('/verif/seeded/%s/*/README.md' % pid)):
        for l in open(r, errors='replace'):
            if l.strip():
                t = re.sub(r'^#+\s*', '', l.strip())
                t = re.sub(r'^(seed(ed)?( change)?|SEEDED)?\s*[/ ]*\(?[A-L]\)?\s*[/(]*\s*C\d\d\)?\s*[-:]*\s*', '', t, flags=re.I)
                t = re.sub(r'^C\d\d\s*(seeded change)?\s*[/ ]*[A-L]\s*[-:]*\s*', '', t, flags=re.I)
                titles.append(t[:220])
                break
    text = """You are helping to evaluate a verification harness for microsoft/yardl (a YAML schema compiler written in Go that generates
C++ / Python / MATLAB serialization code). Your job: write ONE realistic change to yardl that BREAKS the property below while the repository
still compiles and its existing Go test suite still passes, and demonstrate it.

## The property (%(id)s)

%(prop)s

## Your scratch worktree

%(wt)s  (a git worktree of yardl at the current commit; work ONLY there and in scratch directories you create with `mktemp -d` under /tmp;
never read or write /repo or /verif, and do not look for existing verification machinery - your change must be independent of it).
Do not commit. Leave your change as uncommitted edits of tracked files in the worktree.

## What kind of change

* A change a maintainer could plausibly make (a refactoring, an optimisation, a "simplification", a new fast path, a cache, a changed
  default, a reordered step) in the yardl sources under `tooling/` - the Go code and/or the run-time support files it embeds
  (`tooling/internal/cpp/include/**`, `tooling/internal/python/static_files/**`, templates) - that makes the property false.
* It must need SOMETHING SPECIFIC to manifest: a particular interleaving, a crash or fault at a particular point, a multi-step sequence
  of operations, an unusual input (a particular type shape, value, size, spelling, directory layout), or two cooperating sites that each
  look fine alone. Not something ordinary use (the tutorial model, a plain `yardl generate`, a simple round trip) would expose at once.
* It must still build (`cd tooling && go build ./...`) and pass the existing tests
  (`cd tooling && go test -vet=off -count=1 ./...`, 435 tests, about a minute).
* It must be DIFFERENT from the changes earlier rounds already made for this property (do something in another place / of another kind):
%(titles)s

## Deliverables - in %(wt)s/SEEDED/%(letter)s/ (create it; it is untracked)

1. `patch.diff` - `git -C %(wt)s diff -- tooling > SEEDED/%(letter)s/patch.diff` (tracked files only; it must apply with `git apply` to a clean
   checkout of the same commit).
2. `demo.sh` (plus whatever small files it needs next to it: models, a python script, a C++ driver, shim headers) - called as
   `bash demo.sh <path-to-a-yardl-worktree>`; it builds yardl from `<path>/tooling` (`go build -o <scratch>/yardl ./cmd/yardl`), runs
   the demonstration in a `mktemp -d` directory that it removes on exit, and exits 1 when the property is violated, 0 when it holds,
   2 for infrastructure trouble. It must exit 1 with your change applied and 0 on the unchanged commit. Keep it under five minutes and
   deterministic (no dependence on machine load for its verdict where that can be avoided).
3. `README.md` - first line a one-line title of the change; then what was changed and why it looks plausible; then a section
   `## What it needs to manifest`; then, if you noticed any, a section `## Side observations` listing genuine defects of the UNCHANGED
   code that you ran into (with the input that shows them).
Confirm all of it yourself: tests pass with the change; demo exits 1 with it; take the change out with
`git -C %(wt)s apply -R SEEDED/%(letter)s/patch.diff` (NEVER use `git stash`: the stash is shared by all worktrees of the repository and other agents are working in
sibling worktrees), demo exits 0; put it back with `git apply SEEDED/%(letter)s/patch.diff` so that the worktree holds it at the end.

## Facts about this sandbox (no network at all)

* Every shell call: `export GOFLAGS=-mod=mod GOPROXY=off` (do NOT set GOSUMDB=off; the default `go` then switches to the cached go1.24
  toolchain that tooling/go.mod asks for). `go build ./cmd/yardl` takes about 10 s.
* yardl keeps a package cache under $HOME - give it a scratch HOME when you run it in demos, but build with the real HOME.
* Generated Python runs under `/opt/veriftools/pyvenv/bin/python` (CPython 3.11, numpy 2.x). The system python3 has no numpy.
* Generated C++ compiles with `g++ -std=c++17 -I/root/miniconda/include` (nlohmann/json is there). There is NO xtensor, NO
  Howard Hinnant `date/date.h` and NO HDF5: generate with `cpp: {generateHDF5: false}`; if your demo needs C++ with arrays or dates, write the
  minimal shim headers it needs next to demo.sh (yardl has the option `cpp.overrideArrayHeader`), or prefer Python / the CLI.
* There is no MATLAB or Octave: generated MATLAB can only be inspected as text.
* The file watcher (`yardl generate --watch`) works here.
* Remove scratch directories you create; do not leave build output in the worktree other than your edits and SEEDED/.

When you are done, reply with: the title, the files changed, what it needs to manifest, and the exact results of the four confirmations
(build, tests, demo with change, demo without change).
""" % {'id': pid, 'prop': json.dumps(p, indent=1, ensure_ascii=False), 'wt': wt, 'letter': letter,
       'titles': '\n'.join('  - ' + t for t in titles)}
    open('/tmp/prompts%s/%s.txt' % (rd, pid), 'w').write(text)
    print(pid, len(titles), 'earlier titles')
