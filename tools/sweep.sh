#!/bin/bash
# usage: sweep.sh <seed> <evidence dir or ""> [tier] [ids...]   -- runs every check once, one line per check
SEED=$1; EVD=$2; TIER=${3:-quick}; shift 3 2>/dev/null
IDS=${@:-01 02 03 04 05 06 07 08 09 10 11 12 13 14 15 16 17 18 19 20}
cd "$(dirname "$(readlink -f "$0")")/.."
for i in $IDS; do
  s=$(date +%s)
  L=/tmp/sweep_${TIER}_${SEED}_C$i.log
  if [ -n "$EVD" ]; then
    VERIF_SEED=$SEED VERIF_EVIDENCE=$EVD VERIF_WORK=/tmp/sweepwork_${TIER}_$SEED ./check C$i --tier $TIER > $L 2>&1
  else
    VERIF_SEED=$SEED ./check C$i --tier $TIER > $L 2>&1
  fi
  rc=$?
  echo "C$i seed=$SEED tier=$TIER rc=$rc $(( $(date +%s) - s ))s $(grep -c '^VIOLATION' $L) violations $(grep -c '^KNOWN' $L) known $(grep -c '^INCONCLUSIVE' $L) inconclusive"
done
