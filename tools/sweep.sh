#!/bin/bash
# usage: sweep.sh <seed> <evidence dir or ""> 
SEED=$1
cd /verif
for i in 01 02 03 04 05 06 07 08 09 10 11 12 13 14 15 16 17 18 19 20; do
  s=$(date +%s)
  if [ -n "$2" ]; then
    VERIF_SEED=$SEED VERIF_EVIDENCE=$2 VERIF_WORK=/tmp/sweepwork_$SEED ./check C$i --tier quick > /tmp/sweep_${SEED}_C$i.log 2>&1
  else
    VERIF_SEED=$SEED ./check C$i --tier quick > /tmp/sweep_${SEED}_C$i.log 2>&1
  fi
  rc=$?
  echo "C$i seed=$SEED rc=$rc $(( $(date +%s) - s ))s $(grep -c '^VIOLATION' /tmp/sweep_${SEED}_C$i.log) violations $(grep -c '^KNOWN' /tmp/sweep_${SEED}_C$i.log) known"
done
